#!/bin/sh
# usage: seedrun.sh <worktree> <out dir of the sub-agent variant> <property id>...
# Confirms a seeded change in its scratch worktree (build, whole suite with the patch, demo with / without the
# patch) and runs the quick checks against that worktree with the patch applied (VERIF_REPO), leaving /repo alone.
WT=$1; OUT=$2; shift 2
export GOFLAGS=-mod=mod GOPROXY=off GOSUMDB=off GOTOOLCHAIN=local
DDIR=$(cat $OUT/where.txt 2>/dev/null | tr -d ' \n'); DDIR=${DDIR:-.}
cd $WT && git checkout -q -- . && git clean -fdq
git apply "$OUT/patch.diff" || { echo "SEED $OUT: patch does not apply"; exit 1; }
go build ./... || { echo "SEED $OUT: does not build"; exit 1; }
if go test -count=1 -timeout 25m ./... > $OUT/confirm_suite.log 2>&1; then SUITE=pass; else SUITE=FAIL; fi
cp "$OUT/demo_test.go" $DDIR/demo_test.go
if (cd $DDIR && go test -count=1 -run . . > $OUT/confirm_demo_with.log 2>&1); then WITH=pass; else WITH=fail; fi
rm -f $DDIR/demo_test.go
for id in "$@"; do
  out=$(cd /verif && VERIF_REPO=$WT ./check $id --tier quick 2>&1); rc=$?
  echo "SEED $OUT: check $id rc=$rc $(echo "$out" | grep -m1 '^VIOLATION\|^BROKEN')"
  echo "$out" | grep -A1 -m3 '^VIOLATION' | grep '^\[check\]' | cut -c1-500
done
git checkout -q -- . && git clean -fdq
cp "$OUT/demo_test.go" $DDIR/demo_test.go
if (cd $DDIR && go test -count=1 -run . . > $OUT/confirm_demo_without.log 2>&1); then WITHOUT=pass; else WITHOUT=fail; fi
rm -f $DDIR/demo_test.go; git clean -fdq
echo "SEED $OUT: suite=$SUITE demo_with_patch=$WITH demo_without_patch=$WITHOUT"
