#!/usr/bin/env python3
"""compact rendering of wire-form values, expressions and results (diagnosis, finding descriptors)"""
import json,sys
def num(n):
    v=0
    for l in reversed(n['mag'] if isinstance(n['mag'],list) else []): v=v*10000+l
    return -v if n['neg'] else v
def sv(v):
    k=v.get('k')
    if k in('long','dec','dt','dur'): return f"{k}({num(v['n'])})"
    if k=='str': return repr(''.join(chr(c) for c in v['s']))
    if k=='ent': return f"{v['ty']}::{v['id']}"
    if k=='set': return '['+', '.join(sv(x) for x in v['els'])+']'
    if k=='rec': return '{'+', '.join(f"{a}:{sv(b)}" for a,b in (v['f'].items() if isinstance(v['f'],dict) else []))+'}'
    if k=='bool': return str(v['b'])
    if k=='ip': return f"ip({v['a']}/{v['p']})"
    return str(v)
def se(e):
    op=e['op']
    if op=='val': return sv(e['v'])
    if op=='var': return e['name']
    if 'l' in e: return f"({se(e['l'])} {op} {se(e['r'])})"
    if op in('access','has'): return f"{se(e['a'])}.{op}({e['attr']})"
    if op=='like': return f"{se(e['a'])} like {e['pat']}"
    if op=='is': return f"{se(e['a'])} is {e['ty']}"
    if op=='isIn': return f"{se(e['a'])} is {e['ty']} in {se(e['e'])}"
    if op=='if': return f"if {se(e['c'])} then {se(e['t'])} else {se(e['e'])}"
    if op=='ext': return f"{e['fn']}({', '.join(se(a) for a in e['args'])})"
    if op=='set': return '['+', '.join(se(a) for a in e['els'])+']'
    if op=='rec': return '{'+', '.join(f"{p['key']}:{se(p['val'])}" for p in e['kv'])+'}'
    if 'a' in e: return f"{op}({se(e['a'])})"
    return str(e)
def so(o):
    if not o.get('ok'): return 'ERR'+('(panic)' if 'panic' in o else '')+(' '+o.get('cls','') )
    return sv(o['v'])

def sscope(var, s):
    t = s.get('t')
    if t == 'all': return var
    if t == 'eq': return f"{var} == {sv(s['e'])}"
    if t == 'in': return f"{var} in {sv(s['e'])}"
    if t == 'inSet': return f"{var} in [{', '.join(sv(x) for x in (s['es'] if isinstance(s['es'], list) else []))}]"
    if t == 'is': return f"{var} is {s['ty']}"
    if t == 'isIn': return f"{var} is {s['ty']} in {sv(s['e'])}"
    return str(s)

def sp(p):
    """policy in wire form"""
    conds = p.get('conds') if isinstance(p.get('conds'), list) else []
    annos = p.get('annos') if isinstance(p.get('annos'), list) else []
    a = ''.join('@%s(%r) ' % (x['k'], ''.join(chr(c) for c in x['v'])) for x in annos)
    return "%s%s(%s, %s, %s)%s" % (a, p['effect'], sscope('principal', p['principal']), sscope('action', p['action']),
                                  sscope('resource', p['resource']),
                                  ''.join(" %s { %s }" % (c['kind'], se(c['body'])) for c in conds))

def sreq(env):
    return "P=%s A=%s R=%s C=%s" % (sv(env['p']), sv(env['a']), sv(env['r']), sv(env['c']))

def sres(r):
    if not isinstance(r, dict): return str(r)
    if r.get('st') in ('skip', 'fail'): return r.get('st') + (':' + r.get('why', '') if r.get('why') else '')
    return "%s reasons=%s errors=%s" % (r.get('decision'), sorted(r.get('reasons') or []), sorted(r.get('errors') or []))


def big(n):
    """a limb number {"neg", "mag": [base-10000 limbs, least significant first]} as text"""
    if not isinstance(n, dict):
        return str(n)
    v = 0
    for k, limb in enumerate(n.get("mag") or []):
        v += int(limb) * (10000 ** k)
    return str(-v if n.get("neg") else v)
